"""Generates MANIFEST.json from the table below (kept in one place so it stays valid)."""
import json
import os

VERIF = os.path.dirname(os.path.dirname(os.path.abspath(__file__)))

TRUST = ("Trusted base: the simulated broker/Redis/clock (lib/sim, lib/vsim) encode the AMQP 0-9-1 / RabbitMQ and Redis "
         "behaviour the engine relies on (the broker is itself validated against spec/Broker.tla on every trace); frames are "
         "sequentialised; TLC and the Json community module; bounds as stated in the evidence file.")

CHECKS = {
 "C02": ("model_checking", "trace validation by TLC (Trace.tla/Props.tla) of real-engine runs under enumerated schedules",
         "Every run of the scenario corpus (sequential machines, successful fan-outs, single unhandled failures; 1-2 concurrent executions) "
         "on the real engine, under all interleavings of deliveries/replies/timers up to a budget and random ones beyond, is validated line by line: "
         "NotifSeqOK, TerminalFrozen, RecordShape at every notification/record change, EventuallyTerminal at D1.", "7 C02"),
 "C03": ("model_checking", "trace validation by TLC of the exact broker operation log of every handler",
         "AckOnce, TriggerAckLast (no successor publish / terminal record / terminal notification after the trigger's ack), CarrierExists at every frame end, "
         "DrainedD0/D1 at quiescence, on every run incl. each handler's error paths.", "7 C03"),
 "C05": ("model_checking", "trace validation by TLC of fan-out runs under all interleavings",
         "ItemOnce, JoinAfterAll, InFlightBounded evaluated at every publish / frame end of Parallel (1-3 branches) and Map (0-4 items x MaxConcurrency 0..len+1, nesting 2, Map of Maps, in-branch Catch) runs; "
         "for plain machines the terminal output must equal the positional join the States Language prescribes (expected_output), whatever the schedule.", "7 C05"),
 "C06": ("model_checking", "trace validation by TLC of failing fan-outs under all interleavings",
         "FanOutFailsOnce, SiblingsFrozen, SiblingsCancelled, NoLateEffects plus the C02/C03/C09 clauses on every schedule of the failure family (failure subsets, Catch/Retry, nesting, timeouts).", "7 C06"),
 "C09": ("model_checking", "trace validation by TLC of the history store after every step",
         "HistoryWellFormed (ids, previousEventId, timestamps, first event), ExitFollowsEnter, EnteredWithItsInput, NothingAfterTerminal, HistAgreesWithRecord checked at every append and every record change of every run incl. the repository's own demo machines, "
         "a scaled history-quota run and Map-level retries; GetExecutionHistory in both orders through the real API.", "7 C09"),
 "C11": ("model_checking", "trace validation by TLC: record vs notification vs history at every step",
         "NotifShape (CloudWatch keys, subject, integer millisecond dates), ViewsAgree (first stable record after a notification equals its detail), NotifiedOncePerChange, PublishDoesNotAlterRecord (record keeps epoch seconds).", "7 C11"),
}

NOT_YET = {
 "C01": "check under construction in this session (judge mode with AslInterp.tla); not claimed yet",
 "C04": "check under construction (crash/restart enumeration on the trace machinery); not claimed yet",
 "C07": "check under construction (ErrorPolicy.tla judge); not claimed yet",
 "C08": "check under construction (Timestamps.tla judge + wait/timeout traces); not claimed yet",
 "C10": "check under construction (Api.tla reference model + replay); not claimed yet",
 "C12": "check under construction (RefPath.tla judge); not claimed yet",
 "C13": "check under construction (Template.tla judge); not claimed yet",
 "C14": "check under construction (Choice.tla judge); not claimed yet",
 "C15": "check under construction (child executions / task tokens on the trace machinery); not claimed yet",
 "C16": "check under construction (Quota.tla judge); not claimed yet",
 "C17": "check under construction (Arn.tla judge); not claimed yet",
 "C18": "check under construction (WellFormed.tla + poison events); not claimed yet",
 "C19": "check under construction (AddressString.tla + routing clauses); not claimed yet",
 "C20": "check under construction (Store.tla + simulated Redis); not claimed yet",
}


def main():
    claimed = dict(CHECKS)
    extra = os.path.join(VERIF, "tools", "manifest_extra.json")
    na = dict(NOT_YET)
    if os.path.exists(extra):
        with open(extra) as f:
            ex = json.load(f)
        for pid, row in ex.get("checks", {}).items():
            claimed[pid] = tuple(row)
        for pid, why in ex.get("not_applicable", {}).items():
            na[pid] = why
    for pid in claimed:
        na.pop(pid, None)
    checks = []
    for pid in sorted(claimed):
        cat, tech, text, ref = claimed[pid]
        checks.append({
            "property_id": pid,
            "quick_cmd": "./check %s --tier quick" % pid,
            "thorough_cmd": "./check %s --tier thorough" % pid,
            "evidence_file": "/verif/evidence/%s.json" % pid,
            "replay_cmd_template": "./check %s --replay {path}" % pid,
            "engine": "tlc",
            "level_claimed": {"category": cat, "text": text, "design_ref": "DESIGN.md section " + ref},
            "level_note": TRUST,
            "technique": tech,
        })
    m = {
        "version": 1,
        "setup_cmd": "./tools/setup.sh",
        "hooks": {"guard": "LSF_VERIF", "enable": "none needed: all observation points are at the simulated broker, the stores, the clock and the API (no source hooks)",
                  "baseline_off_cmd": "cd /repo && /venv/bin/python -m pytest -ra -q -p no:cacheprovider --timeout=900 --continue-on-collection-errors",
                  "source_commits": [], "add_only": True},
        "engines": [{"name": "tlc", "path": "/usr/local/bin/tlc", "serves_properties": sorted(claimed),
                     "kind_free_text": "TLC 1.8 model checker: explicit TLA+ specification in /verif/spec; trace validation, judge mode and model checking"}],
        "checks": checks,
        "not_applicable": [{"property_id": k, "reason": v} for k, v in sorted(na.items())],
        "notes": "Model-based verification with an explicit TLA+ specification (spec/*.tla). Fixes committed to /repo: see known_findings.json (status fixed).",
    }
    with open(os.path.join(VERIF, "MANIFEST.json"), "w") as f:
        json.dump(m, f, indent=1)
    print("MANIFEST.json: %d checks, %d not applicable" % (len(checks), len(m["not_applicable"])))


if __name__ == "__main__":
    main()
