#!/usr/bin/env python3
"""Systematic (syntactic) mutation of the repository's sources, to measure what the checks notice.

    tools/mutate.py run --n 40 --seed 1 [--files state_engine.py,...] [--jobs 4]

For each mutant: a scratch COPY of /repo's working tree (outside /repo and /verif) gets ONE small syntactic change
(a comparison flipped, an `if` test negated, `and`<->`or`, a small integer constant +-1, a `not` dropped, a statement
`x` replaced by `pass` where x is a call statement); the repository's own test suite is run on it first -- a mutant
the 66 tests already kill is of no interest here -- and then the quick tier of the checks that bear on the mutated
file.  Results go to run/mutation/<id>.json; `tools/mutate.py report` prints the table.  Nothing is ever written
to /repo.  Surviving mutants are triaged by hand (equivalent change, behaviour outside every property, or a miss)."""
import argparse
import ast
import json
import os
import random
import shutil
import subprocess
import sys
import tempfile
import time
from concurrent.futures import ThreadPoolExecutor

KINDS = set()          # restrict the mutation operators (--kinds swap,dropcall)
VERIF = os.path.dirname(os.path.dirname(os.path.abspath(__file__)))
REPO = "/repo"
PKG = "asl-workflow-engine/py/asl_workflow_engine"
OUT = os.path.join(VERIF, "run", "mutation")

CHECKS_FOR = {
    "state_engine.py": ["C01", "C02", "C03", "C04", "C05", "C06", "C07", "C08", "C09", "C11", "C14", "C15", "C16", "C17", "C18", "C20", "C13", "C12"],
    "task_dispatcher.py": ["C03", "C04", "C06", "C07", "C08", "C15", "C16", "C17", "C19", "C02"],
    "event_dispatcher.py": ["C03", "C04", "C18", "C19", "C02", "C11"],
    "state_engine_paths.py": ["C12", "C13", "C01", "C14"],
    "rest_api_asyncio.py": ["C10", "C16", "C17", "C15", "C09", "C11", "C19"],
    "rest_api.py": ["C10", "C16", "C17", "C19"],
    "store.py": ["C20", "C04"],
    "arn.py": ["C17", "C10"],
    "amqp_0_9_1_messaging_asyncio.py": ["C19"],
    "amqp_0_9_1_messaging.py": ["C19"],
}
STATELINT = "asl-workflow-engine/py/statelint/statelint.py"

CMP = {ast.Lt: ast.LtE, ast.LtE: ast.Lt, ast.Gt: ast.GtE, ast.GtE: ast.Gt, ast.Eq: ast.NotEq, ast.NotEq: ast.Eq,
       ast.In: ast.NotIn, ast.NotIn: ast.In, ast.Is: ast.IsNot, ast.IsNot: ast.Is}


PROTOCOL_CALLS = {"publish", "acknowledge", "broadcast", "broadcast_notification", "set_timeout", "clear_timeout", "update_execution_history",
                  "end_execution", "change_state", "handle_error", "check_pending_results", "acknowledge_event_list", "handle_terminal_state",
                  "remove_canceller", "set_timeout_canceller", "cancel_task", "handle_sfn_response", "asl_state_collect_results", "set_ttl",
                  "send", "schedule_orphaned_response_handler"}


def _callname(st):
    if isinstance(st, ast.Expr) and isinstance(st.value, ast.Call):
        f = st.value.func
        return f.attr if isinstance(f, ast.Attribute) else getattr(f, "id", "")
    return ""


def sites(tree, kinds=None):
    """[(kind, node)] of the mutable places"""
    out = []
    for node in ast.walk(tree):
        # two adjacent statements of a block, one of them a protocol operation: swapped
        for fld in ("body", "orelse", "finalbody"):
            blk = getattr(node, fld, None)
            if isinstance(blk, list):
                for i in range(len(blk) - 1):
                    a, b = blk[i], blk[i + 1]
                    if (_callname(a) in PROTOCOL_CALLS or _callname(b) in PROTOCOL_CALLS) and \
                            all(isinstance(x, (ast.Expr, ast.Assign, ast.AugAssign)) for x in (a, b)) and \
                            not (isinstance(a, ast.Expr) and isinstance(a.value, ast.Constant)):
                        out.append(("swap", (blk, i)))
    for node in ast.walk(tree):
        if isinstance(node, ast.Compare) and len(node.ops) == 1 and type(node.ops[0]) in CMP:
            out.append(("cmp", node))
        elif isinstance(node, ast.BoolOp):
            out.append(("boolop", node))
        elif isinstance(node, (ast.If, ast.While)):
            out.append(("negate", node))
        elif isinstance(node, ast.UnaryOp) and isinstance(node.op, ast.Not):
            out.append(("dropnot", node))
        elif isinstance(node, ast.Constant) and isinstance(node.value, int) and not isinstance(node.value, bool) and 0 <= node.value <= 10:
            out.append(("const", node))
        elif isinstance(node, ast.Expr) and isinstance(node.value, ast.Call):
            f = node.value.func
            name = f.attr if isinstance(f, ast.Attribute) else getattr(f, "id", "")
            if name not in ("info", "debug", "warning", "error", "exception", "print", "log_kv", "set_tag", "inc", "observe"):
                out.append(("dropcall", node))
    return out


def mutate_source(src, rng):
    """-> (new source, description) or None"""
    tree = ast.parse(src)
    ss = [s for s in sites(tree) if s[0] == "swap" or getattr(s[1], "lineno", 0) > 0]
    if KINDS:
        ss = [s for s in ss if s[0] in KINDS]
    if not ss:
        return None
    kind, node = rng.choice(ss)
    if kind == "swap":
        blk, i = node
        line = blk[i].lineno
        desc = "line %d: statements swapped (%s <-> %s)" % (line, ast.unparse(blk[i])[:50].replace("\n", " "), ast.unparse(blk[i + 1])[:50].replace("\n", " "))
        blk[i], blk[i + 1] = blk[i + 1], blk[i]
        ast.fix_missing_locations(tree)
        try:
            new = ast.unparse(tree)
            compile(new, "<mutant>", "exec")
        except Exception:
            return None
        return new, desc
    line = node.lineno
    if kind == "cmp":
        old = type(node.ops[0]).__name__
        node.ops[0] = CMP[type(node.ops[0])]()
        desc = "line %d: comparison %s -> %s" % (line, old, type(node.ops[0]).__name__)
    elif kind == "boolop":
        old = type(node.op).__name__
        node.op = ast.Or() if isinstance(node.op, ast.And) else ast.And()
        desc = "line %d: %s -> %s" % (line, old, type(node.op).__name__)
    elif kind == "negate":
        node.test = ast.UnaryOp(op=ast.Not(), operand=node.test)
        desc = "line %d: %s test negated" % (line, type(node).__name__.lower())
    elif kind == "dropnot":
        # replace `not x` by `x` in place
        for parent in ast.walk(tree):
            for fld, val in ast.iter_fields(parent):
                if val is node:
                    setattr(parent, fld, node.operand)
                elif isinstance(val, list) and node in val:
                    val[val.index(node)] = node.operand
        desc = "line %d: `not` dropped" % line
    elif kind == "const":
        old = node.value
        node.value = old + rng.choice([1, -1]) if old > 0 else 1
        desc = "line %d: constant %d -> %d" % (line, old, node.value)
    else:
        for parent in ast.walk(tree):
            for fld, val in ast.iter_fields(parent):
                if isinstance(val, list) and node in val:
                    val[val.index(node)] = ast.Pass()
        desc = "line %d: call statement removed (%s)" % (line, ast.unparse(node)[:70])
    ast.fix_missing_locations(tree)
    try:
        new = ast.unparse(tree)
        compile(new, "<mutant>", "exec")
    except Exception:
        return None
    return new, desc + " | " + src.splitlines()[line - 1].strip()[:100]


def sh(cmd, cwd=None, env=None, timeout=1800):
    try:
        p = subprocess.run(cmd, cwd=cwd, env=env, stdout=subprocess.PIPE, stderr=subprocess.STDOUT, text=True, timeout=timeout)
        return p.returncode, p.stdout
    except subprocess.TimeoutExpired as ex:
        return 124, (ex.stdout or "") if isinstance(ex.stdout, str) else ""


def one(mid, relfile, seed):
    rng = random.Random(seed)
    res = {"id": mid, "file": relfile, "seed": seed}
    scratch = tempfile.mkdtemp(prefix="lsf-mut-", dir="/tmp")
    try:
        rc, out = sh(["bash", "-c", "cd %s && git ls-files -z asl-workflow-engine | tar --null -T - -cf - | tar -xf - -C %s" % (REPO, scratch)])
        if rc != 0:
            res["status"] = "setup-failed"
            return res
        # the working tree, not HEAD: copy the tracked files as they are now
        path = os.path.join(scratch, relfile)
        src = open(path, encoding="utf-8").read()
        m = mutate_source(src, rng)
        if m is None:
            res["status"] = "no-site"
            return res
        new, desc = m
        res["mutation"] = desc
        open(path, "w", encoding="utf-8").write(new)
        rc, out = sh(["/venv/bin/python", "-m", "pytest", "-q", "-x", "-p", "no:cacheprovider", "--timeout=300", "--continue-on-collection-errors",
                      "--deselect", "test/test_global_context.py", "--deselect", "test/test_intrinsic_functions.py", "--deselect", "test/test_payload_template.py"],
                     cwd=os.path.join(scratch, "asl-workflow-engine", "py"), timeout=900)
        tail = out.strip().splitlines()[-1] if out.strip() else ""
        res["repo_tests"] = tail[:120]
        if rc != 0:
            res["status"] = "killed-by-repo-tests"
            return res
        base = os.path.basename(relfile)
        checks = CHECKS_FOR.get(base, ["C18"] if relfile == STATELINT else [])
        rundir = os.path.join(scratch, "verif-run")
        os.makedirs(rundir, exist_ok=True)
        env = dict(os.environ, LSF_REPO=scratch, VERIF_TIER="quick", VERIF_RUN_DIR=rundir)
        res["checks"] = {}
        caught = []
        for c in checks:
            t0 = time.time()
            rc, out = sh([os.path.join(VERIF, "check"), c, "--tier", "quick"], cwd=VERIF, env=env, timeout=1500)
            first = next((l for l in out.splitlines() if l.startswith("VIOLATION")), "")
            res["checks"][c] = {"exit": rc, "first": first[:300], "wall_s": round(time.time() - t0, 1)}
            if rc == 1:
                caught.append(c)
                break                       # one report is enough
            if rc == 2:
                res["checks"][c]["tail"] = out[-400:]
        res["caught_by"] = caught
        res["status"] = "caught" if caught else ("machinery" if any(x["exit"] == 2 for x in res["checks"].values()) else "survived")
        return res
    finally:
        shutil.rmtree(scratch, ignore_errors=True)
        os.makedirs(OUT, exist_ok=True)
        with open(os.path.join(OUT, "%s.json" % mid), "w") as f:
            json.dump(res, f, indent=1)


def main():
    ap = argparse.ArgumentParser()
    ap.add_argument("cmd", choices=["run", "report", "rerun"])
    ap.add_argument("--ids", default="")
    ap.add_argument("--n", type=int, default=20)
    ap.add_argument("--seed", type=int, default=1)
    ap.add_argument("--jobs", type=int, default=3)
    ap.add_argument("--files", default="state_engine.py,task_dispatcher.py,event_dispatcher.py,state_engine_paths.py,rest_api_asyncio.py,store.py,arn.py,statelint")
    ap.add_argument("--kinds", default="")
    a = ap.parse_args()
    KINDS.update(k for k in a.kinds.split(",") if k)
    if a.cmd == "report":
        rows = []
        for f in sorted(os.listdir(OUT)) if os.path.isdir(OUT) else []:
            rows.append(json.load(open(os.path.join(OUT, f))))
        by = {}
        for r in rows:
            by.setdefault(r.get("status"), []).append(r)
        for k, v in by.items():
            print("%-22s %d" % (k, len(v)))
        for r in by.get("survived", []) + by.get("machinery", []):
            print("  %s %s %s :: %s" % (r["status"], r["id"], r["file"].split("/")[-1], r.get("mutation", "")[:170]))
        return 0
    if a.cmd == "rerun":
        # the same mutants again (same file, same seed), against the checks as they are now
        jobs = []
        for mid in a.ids.split(","):
            r = json.load(open(os.path.join(OUT, mid + ".json")))
            jobs.append((mid, r["file"], r["seed"]))
        with ThreadPoolExecutor(max_workers=a.jobs) as ex:
            for r in ex.map(lambda j: one(*j), jobs):
                print("%s %-24s %-22s %s" % (r["id"], os.path.basename(r["file"]), r.get("status"), (r.get("mutation") or "")[:110]), flush=True)
        return 0
    rng = random.Random(a.seed)
    files = []
    for f in a.files.split(","):
        files.append(STATELINT if f == "statelint" else PKG + "/" + f)
    weights = {"state_engine.py": 6, "task_dispatcher.py": 3, "state_engine_paths.py": 2}
    pool = [f for f in files for _ in range(weights.get(os.path.basename(f), 1))]
    jobs = [("m%d-%03d" % (a.seed, i), rng.choice(pool), rng.randrange(10 ** 9)) for i in range(a.n)]
    with ThreadPoolExecutor(max_workers=a.jobs) as ex:
        for r in ex.map(lambda j: one(*j), jobs):
            print("%s %-24s %-22s %s" % (r["id"], os.path.basename(r["file"]), r.get("status"), (r.get("mutation") or "")[:110]), flush=True)
    return 0


if __name__ == "__main__":
    sys.exit(main())
